package c03

import (
	"debug/elf"
	"debug/gosym"
	"encoding/hex"
	"fmt"
	"os"
	"path/filepath"
	"runtime"
	"sort"
	"strings"
	"syscall"
	"unsafe"

	zz "github.com/tencent/goom/zzverif/c03"
	ref "verifh/ref/x86asm"
	"verifh/vk"
)

// fn is one function of a corpus binary, resident in this process' memory.
type fn struct {
	bin   string
	name  string
	entry uintptr // address of the bytes in this process
	vaddr uint64  // link-time address (for reporting)
	slot  int     // bytes up to the next symbol
}

// loadBinary reads the .text of an ELF file into memory and lists its functions.
func loadBinary(path string) ([]fn, []byte) {
	f, err := elf.Open(path)
	if err != nil {
		vk.Fatalf("open %s: %v", path, err)
	}
	defer f.Close()
	sec := f.Section(".text")
	if sec == nil {
		vk.Fatalf("%s: no .text", path)
	}
	data, err := sec.Data()
	if err != nil {
		vk.Fatalf("%s: %v", path, err)
	}
	// slack of int3 bytes so that scanning past the last function stays inside the buffer
	// outside the Go heap: goom fabricates slices over raw addresses, which the GC must not see as
	// pointers into (possibly freed) heap objects
	buf, err := syscall.Mmap(-1, 0, len(data)+8192, syscall.PROT_READ|syscall.PROT_WRITE, syscall.MAP_PRIVATE|syscall.MAP_ANON)
	if err != nil {
		vk.Fatalf("mmap: %v", err)
	}
	copy(buf, data)
	for i := len(data); i < len(buf); i++ {
		buf[i] = 0xcc
	}
	base := uintptr(unsafe.Pointer(&buf[0]))
	// function table from the pclntab (toolchain binaries carry no ELF symbol table)
	pcln := f.Section(".gopclntab")
	if pcln == nil {
		vk.Fatalf("%s: no .gopclntab", path)
	}
	pdata, err := pcln.Data()
	if err != nil {
		vk.Fatalf("%s: %v", path, err)
	}
	tab, err := gosym.NewTable(nil, gosym.NewLineTable(pdata, sec.Addr))
	if err != nil {
		vk.Fatalf("%s: pclntab: %v", path, err)
	}
	var fs []fn
	funcs := tab.Funcs
	sort.Slice(funcs, func(i, j int) bool { return funcs[i].Entry < funcs[j].Entry })
	for i, g := range funcs {
		if g.Entry < sec.Addr || g.Entry >= sec.Addr+sec.Size {
			continue
		}
		next := sec.Addr + sec.Size
		if i+1 < len(funcs) {
			next = funcs[i+1].Entry
		}
		if next <= g.Entry {
			continue
		}
		fs = append(fs, fn{bin: filepath.Base(path), name: g.Name, entry: base + uintptr(g.Entry-sec.Addr), vaddr: g.Entry, slot: int(next - g.Entry)})
	}
	sort.Slice(fs, func(i, j int) bool { return fs[i].vaddr < fs[j].vaddr })
	return fs, buf
}

func corpusBinaries(thorough bool) []string {
	root := runtime.GOROOT()
	tool := filepath.Join(root, "pkg", "tool", runtime.GOOS+"_"+runtime.GOARCH)
	self, _ := os.Executable()
	bins := []string{self, filepath.Join(root, "bin", "go")}
	if thorough {
		bins = append(bins, filepath.Join(root, "bin", "gofmt"))
		for _, t := range []string{"compile", "link", "asm", "vet", "cover"} {
			bins = append(bins, filepath.Join(tool, t))
		}
	}
	return bins
}

// dec is one reference-decoded instruction.
type dec struct {
	pos  int
	inst ref.Inst
	// pcrel
	hasRel bool
	target int64 // absolute target relative to the start of the sequence's base (base + pos + len + rel)
	relOff int
	relLen int
}

// decodeSeq decodes code[0:limit] with the reference decoder; ok=false if an instruction cannot
// be decoded or the sequence does not end exactly at limit.
func decodeSeq(code []byte, limit int) ([]dec, bool) {
	var out []dec
	for pos := 0; pos < limit; {
		end := pos + 16
		if end > len(code) {
			end = len(code)
		}
		in, err := ref.Decode(code[pos:end], 64)
		if err != nil || in.Len == 0 || in.Op == 0 {
			return out, false
		}
		d := dec{pos: pos, inst: in}
		if in.PCRel > 0 {
			d.hasRel = true
			d.relOff, d.relLen = in.PCRelOff, in.PCRel
			var rel int64
			switch in.PCRel {
			case 1:
				rel = int64(int8(code[pos+in.PCRelOff]))
			case 2:
				rel = int64(int16(uint16(code[pos+in.PCRelOff]) | uint16(code[pos+in.PCRelOff+1])<<8))
			case 4:
				rel = int64(int32(uint32(code[pos+in.PCRelOff]) | uint32(code[pos+in.PCRelOff+1])<<8 | uint32(code[pos+in.PCRelOff+2])<<16 | uint32(code[pos+in.PCRelOff+3])<<24))
			default:
				return out, false
			}
			d.target = int64(pos+in.Len) + rel
		}
		out = append(out, d)
		pos += in.Len
		if pos > limit {
			return out, false
		}
	}
	return out, true
}

// form renders the shape of an instruction (mnemonic, operand kinds, pc-relative width).
func form(d dec) string {
	var args []string
	for _, a := range d.inst.Args {
		if a == nil {
			break
		}
		switch v := a.(type) {
		case ref.Reg:
			args = append(args, "r")
		case ref.Mem:
			if v.Base == ref.RIP {
				args = append(args, "[rip]")
			} else {
				args = append(args, "m")
			}
		case ref.Imm:
			args = append(args, "i")
		case ref.Rel:
			args = append(args, fmt.Sprintf("rel%d", d.relLen*8))
		}
	}
	return d.inst.Op.String() + "(" + strings.Join(args, ",") + ")"
}

func shape(ds []dec) string {
	var s []string
	for _, d := range ds {
		s = append(s, form(d))
	}
	return strings.Join(s, " ")
}

// sameButRel compares two decoded instructions: same opcode, same operands except the
// pc-relative one.
func sameButRel(a, b ref.Inst) bool {
	if a.Op != b.Op {
		return false
	}
	for i := range a.Args {
		x, y := a.Args[i], b.Args[i]
		if (x == nil) != (y == nil) {
			return false
		}
		if x == nil {
			break
		}
		switch xv := x.(type) {
		case ref.Rel:
			if _, ok := y.(ref.Rel); !ok {
				return false
			}
		case ref.Mem:
			yv, ok := y.(ref.Mem)
			if !ok {
				return false
			}
			if xv.Base == ref.RIP {
				xv.Disp, yv.Disp = 0, 0
			}
			if xv != yv {
				return false
			}
		default:
			if x != y {
				return false
			}
		}
	}
	return true
}

// StaticCase is the replay artefact of the static part.
type StaticCase struct {
	Sub     string `json:"sub"`
	Bin     string `json:"bin"`
	Func    string `json:"func"`
	VAddr   string `json:"vaddr"`
	Offset  int64  `json:"placeholder_offset"` // trampoline - from
	Code    string `json:"code_hex"`           // the bytes handed to goom (function extent as goom scans it)
	Size    int    `json:"func_size"`
	Fixed   string `json:"fixed_hex,omitempty"`
	N       int    `json:"copied,omitempty"`
	Compose bool   `json:"compose,omitempty"` // the case is about the complete trampoline (apply path)
}

// judge validates goom's answer for one (function, placeholder) pair. It returns the clause
// violated ("" = faithful or refused), a detail text and the shape of the copied prefix.
func judge(code []byte, size, L int, off int64, fixed []byte, n int, ferr error) (clause, detail, shp string, refused bool) {
	if ferr != nil {
		return "", "", "", true
	}
	if n < L || n > size {
		return "copied-length", fmt.Sprintf("goom copied %d bytes (jump length %d, function %d)", n, L, size), "", false
	}
	orig, ok := decodeSeq(code, n)
	if !ok {
		// the reference cannot decode the prefix goom copied, or goom cut an instruction in two
		if len(orig) > 0 {
			last := orig[len(orig)-1]
			if last.pos+last.inst.Len > n {
				return "cuts-instruction", fmt.Sprintf("the copied prefix of %d bytes ends inside the instruction at +%d", n, last.pos), shape(orig), false
			}
		}
		return "", "", "", true // reference cannot decode: not judged (counted as refused-by-reference)
	}
	shp = shape(orig)
	neu, ok2 := decodeSeq(fixed, len(fixed))
	if !ok2 || len(neu) != len(orig) {
		return "relocated-stream", fmt.Sprintf("the relocated prefix (%d bytes) decodes to %d instructions, the original to %d", len(fixed), len(neu), len(orig)), shp, false
	}
	// map original positions to relocated positions
	newPos := map[int]int{}
	for i := range orig {
		newPos[orig[i].pos] = neu[i].pos
	}
	grown := false
	for i := range orig {
		o, w := orig[i], neu[i]
		if w.inst.Len != o.inst.Len {
			grown = true
		}
		if !o.hasRel {
			if string(fixed[w.pos:w.pos+w.inst.Len]) != string(code[o.pos:o.pos+o.inst.Len]) {
				return "non-pcrel-altered", fmt.Sprintf("instruction %d (%s) is not pc-relative but its bytes changed", i, form(o)), shp, false
			}
			continue
		}
		if !w.hasRel || !sameButRel(o.inst, w.inst) {
			return "operands-altered", fmt.Sprintf("instruction %d: original %q, relocated %q", i, o.inst.String(), w.inst.String()), shp, false
		}
		// absolute targets: original relative to from, relocated relative to trampoline = from+off
		want := o.target
		if o.target >= 0 && o.target < int64(n) {
			np, okp := newPos[int(o.target)]
			if !okp {
				return "", "", shp, false // original branches into the middle of an instruction: not judged
			}
			want = int64(np) + off // the relocated copy of that target (relative to from)
		}
		got := w.target + off
		if got != want {
			kind := "outside the copied prefix"
			if o.target >= 0 && o.target < int64(n) {
				kind = "inside the copied prefix"
			}
			g := ""
			if grown {
				g = " after an earlier instruction grew"
			}
			return "wrong-target", fmt.Sprintf("instruction %d (%s), target %s%s: resolves to from%+d, must be from%+d", i, form(o), kind, g, got, want), shp, false
		}
	}
	// the rest of the function must not branch strictly inside the overwritten/copied prefix
	rest, _ := decodeSeq(code[n:size], size-n)
	for _, d := range rest {
		if d.hasRel {
			t := d.target + int64(n)
			if t > 0 && t < int64(n) {
				return "branch-into-prefix", fmt.Sprintf("the instruction at +%d (%s) branches to +%d, inside the %d copied bytes", d.pos+n, form(d), t, n), shp, false
			}
		}
	}
	return "", "", shp, false
}

var offsets = []int64{1 << 12, -(1 << 12), 1 << 20, -(1 << 20), 1 << 27, -(1 << 27), 1<<31 - 1<<12, -(1<<31 - 1<<12)}

// nearOffsets: placeholders next to the function (every 32-byte slot within +-256 bytes that does
// not overlap the copied prefix), where short branches stay short or sit at the rel8 boundary.
var nearOffsets = []int64{32, 64, 96, 128, 160, 192, 224, 256, -32, -64, -96, -128, -160, -192, -224, -256}

// scratch placeholder: an executable-looking function body outside the Go heap into which the
// real apply path writes the complete trampoline.
var scratch []byte

const scratchBody = 510

func resetScratch() {
	// goom leaves the pages it wrote r-x
	if err := syscall.Mprotect(scratch, syscall.PROT_READ|syscall.PROT_WRITE|syscall.PROT_EXEC); err != nil {
		vk.Fatalf("mprotect scratch: %v", err)
	}
	for i := 0; i+2 < scratchBody; i += 3 {
		scratch[i], scratch[i+1], scratch[i+2] = 0x48, 0x89, 0xc9 // mov rcx, rcx
	}
	for i := scratchBody; i < len(scratch); i++ {
		scratch[i] = 0x90 // code again after the int3 padding, so that an extent scan stops inside the mapping
	}
	for i := scratchBody; i < scratchBody+16; i++ {
		scratch[i] = 0xcc
	}
}

func scratchIntact() bool {
	for i := 0; i+2 < scratchBody; i += 3 {
		if scratch[i] != 0x48 || scratch[i+1] != 0x89 || scratch[i+2] != 0xc9 {
			return false
		}
	}
	return true
}

// judgeCompose validates the complete trampoline image written by the real apply path: the
// relocated prefix (as fixRelativeAddr returns it for this placement) followed by a jump that
// lands on from+n. It returns the clause violated ("" = fine) and a detail text.
func judgeCompose(from uintptr, code []byte, size, L int) (clause, detail string, done bool) {
	tramp := uintptr(unsafe.Pointer(&scratch[0]))
	resetScratch()
	_, cerr := zz.Compose(from, tramp, L)
	fixed, n, ferr := zz.Fix(from, code, tramp, size, L)
	if cerr != nil {
		if !scratchIntact() {
			return "refused-but-placeholder-written", fmt.Sprintf("the apply was refused (%v) but the placeholder's bytes changed", cerr), true
		}
		return "", "", false
	}
	if scratchIntact() {
		// the apply path reported success, so the placeholder must now hold the relocated prologue
		return "accepted-without-trampoline", fmt.Sprintf("the apply with an origin placeholder was accepted but the placeholder's bytes are unchanged: no trampoline was built (the relocation by itself: err=%v)", ferr), true
	}
	if ferr != nil {
		return "", "", false // goom's own extent scan of the function differs from ours; nothing to compare
	}
	if len(fixed) > scratchBody-16 {
		return "", "", false
	}
	if string(scratch[:len(fixed)]) != string(fixed) {
		// the apply path may have scanned another extent than we passed: compare semantically instead
		ds, ok := decodeSeq(scratch, len(fixed))
		if !ok || len(ds) == 0 {
			return "trampoline-prefix", "the placeholder does not start with the relocated prologue", true
		}
	}
	// the jump back
	jb := scratch[len(fixed):]
	switch {
	case jb[0] == 0xe9:
		rel := int64(int32(uint32(jb[1]) | uint32(jb[2])<<8 | uint32(jb[3])<<16 | uint32(jb[4])<<24))
		land := int64(tramp) + int64(len(fixed)) + 5 + rel
		if land != int64(from)+int64(n) {
			return "jump-back-target", fmt.Sprintf("the jump after the relocated prologue lands on from%+d, must land on from+%d", land-int64(from), n), true
		}
	case jb[0] == 0x48 && jb[1] == 0xba:
		return "", "", true // far form: C15's subject (recorded there)
	default:
		return "no-jump-back", fmt.Sprintf("after the %d relocated bytes the placeholder continues with % x instead of a jump back to from+%d (execution would run into the placeholder's old body)", len(fixed), jb[:6], n), true
	}
	return "", "", true
}

func static(c *vk.Ctx) {
	L := zz.JumpLen()
	var merr error
	scratch, merr = syscall.Mmap(-1, 0, 8192, syscall.PROT_READ|syscall.PROT_WRITE|syscall.PROT_EXEC, syscall.MAP_PRIVATE|syscall.MAP_ANON)
	if merr != nil {
		vk.Fatalf("mmap scratch: %v", merr)
	}
	var nCompose, nComposeRefused int64
	var keep [][]byte
	var all []fn
	for _, b := range corpusBinaries(c.Thorough()) {
		fs, buf := loadBinary(b)
		keep = append(keep, buf)
		all = append(all, fs...)
	}
	_ = keep
	offs := offsets
	if !c.Thorough() {
		offs = []int64{1 << 12, -(1 << 12), 1 << 27, -(1<<31 - 1<<12)}
	}
	offs = append(append([]int64{}, offs...), nearOffsets...)
	type agg struct {
		count int
		fn    fn
		cs    StaticCase
		det   string
	}
	viol := map[string]*agg{}
	var nAccept, nRefuse, nTooShort, nRefRefuse int64
	shapes := map[string]struct{}{}
	for i, f := range all {
		if c.Expired() {
			break
		}
		if !c.Mine(int64(i)) {
			continue
		}
		size, err := zz.GetFuncSize(f.entry)
		if err != nil || size <= L {
			nTooShort++
			continue
		}
		if size > f.slot+64 {
			size = f.slot // goom's scan ran into the following functions; it would copy them too — keep the slot
		}
		code := vk.Copy(f.entry, size)
		for _, off := range offs {
			tramp := uintptr(int64(f.entry) + off)
			fixed, n, ferr := zz.Fix(f.entry, code, tramp, size, L)
			c.Res.Evaluations++
			c.Res.Transitions++
			clause, detail, shp, refused := judge(code, size, L, off, fixed, n, ferr)
			if refused {
				if ferr != nil {
					nRefuse++
				} else {
					nRefRefuse++
				}
				continue
			}
			nAccept++
			if shp != "" {
				shapes[shp] = struct{}{}
			}
			if clause == "" {
				continue
			}
			key := fmt.Sprintf("static clause=%s shape=[%s]", clause, shp)
			a := viol[key]
			cs := StaticCase{"static", f.bin, f.name, fmt.Sprintf("%#x", f.vaddr), off, hex.EncodeToString(code), size, hex.EncodeToString(fixed), n, false}
			if a == nil {
				viol[key] = &agg{1, f, cs, detail}
			} else {
				a.count++
				if len(cs.Code) < len(a.cs.Code) {
					a.fn, a.cs, a.det = f, cs, detail
				}
			}
		}
		// the complete trampoline, built by the real apply path in a scratch placeholder
		if clause, detail, done := judgeCompose(f.entry, code, size, L); done || clause != "" {
			nCompose++
			c.Res.Evaluations++
			c.Res.Transitions++
			if clause != "" {
				key := fmt.Sprintf("static clause=%s", clause)
				cs := StaticCase{"static", f.bin, f.name, fmt.Sprintf("%#x", f.vaddr), 0, hex.EncodeToString(code), size, hex.EncodeToString(scratch[:64]), 0, true}
				a := viol[key]
				if a == nil {
					viol[key] = &agg{1, f, cs, detail}
				} else {
					a.count++
					if len(cs.Code) < len(a.cs.Code) {
						a.fn, a.cs, a.det = f, cs, detail
					}
				}
			}
		} else {
			nComposeRefused++
		}
		c.Res.Traces++
		c.Res.States++
		if i%2003 == 0 {
			c.Sample(map[string]interface{}{"bin": f.bin, "func": f.name, "size": size})
		}
	}
	keys := make([]string, 0, len(viol))
	for k := range viol {
		keys = append(keys, k)
	}
	sort.Strings(keys)
	for _, k := range keys {
		a := viol[k]
		c.Violate(k, fmt.Sprintf("%s — smallest example %s:%s (%d occurrences in this shard)", a.det, a.fn.bin, a.fn.name, a.count), a.cs)
	}
	c.Res.Nontrivial = int64(len(shapes))
	c.Res.Extra["n_trampolines_composed"] = nCompose
	c.Res.Extra["n_compose_refused"] = nComposeRefused
	c.Res.Extra["n_accepted"] = nAccept
	c.Res.Extra["n_refused_by_goom"] = nRefuse
	c.Res.Extra["n_not_judged_reference_cannot_decode"] = nRefRefuse
	c.Res.Extra["n_functions_too_short_or_unscannable"] = nTooShort
	c.Res.Extra["n_functions"] = int64(len(all)) / int64(c.NShards)
	c.Res.Extra["placeholder_offsets"] = fmt.Sprint(offs)
	c.Res.Extra["jump_len"] = L
}

func replayStatic(c *vk.Ctx) {
	var cs StaticCase
	c.LoadReplay(&cs)
	code, _ := hex.DecodeString(cs.Code)
	buf, err := syscall.Mmap(-1, 0, len(code)+4096, syscall.PROT_READ|syscall.PROT_WRITE, syscall.MAP_PRIVATE|syscall.MAP_ANON)
	if err != nil {
		vk.Fatalf("mmap: %v", err)
	}
	copy(buf, code)
	from := uintptr(unsafe.Pointer(&buf[0]))
	L := zz.JumpLen()
	if cs.Compose {
		var merr error
		scratch, merr = syscall.Mmap(-1, 0, 8192, syscall.PROT_READ|syscall.PROT_WRITE|syscall.PROT_EXEC, syscall.MAP_PRIVATE|syscall.MAP_ANON)
		if merr != nil {
			vk.Fatalf("mmap scratch: %v", merr)
		}
		// the real extent scan needs int3 padding after the function
		for i := len(code); i < len(buf); i++ {
			buf[i] = 0xcc
		}
		clause, detail, _ := judgeCompose(from, buf[:len(code)], cs.Size, L)
		fmt.Printf("replay static (complete trampoline) %s:%s\n placeholder now: %s\n", cs.Bin, cs.Func, hex.EncodeToString(scratch[:48]))
		if clause != "" {
			fmt.Printf("result: %s: %s\n", clause, detail)
			c.Violate("replay", clause+": "+detail, cs)
		} else {
			fmt.Println("result: conforms")
		}
		return
	}
	fixed, n, ferr := zz.Fix(from, buf[:len(code)], uintptr(int64(from)+cs.Offset), cs.Size, L)
	clause, detail, shp, refused := judge(buf[:len(code)], cs.Size, L, cs.Offset, fixed, n, ferr)
	fmt.Printf("replay static %s:%s placeholder at from%+d\n original: %s\n relocated: %s (copied %d bytes, err=%v)\n shape: %s\n", cs.Bin, cs.Func, cs.Offset, hex.EncodeToString(code[:min(n, len(code))]), hex.EncodeToString(fixed), n, ferr, shp)
	if refused {
		fmt.Println("result: refused (legal)")
		return
	}
	if clause != "" {
		fmt.Printf("result: %s: %s\n", clause, detail)
		c.Violate("replay", clause+": "+detail, cs)
		return
	}
	fmt.Println("result: conforms")
}
