module verifh

go 1.23

require github.com/tencent/goom v0.0.0

replace github.com/tencent/goom => /repo
