package c15arm

import (
	"encoding/binary"
	"fmt"
	"reflect"

	"verifh/ref/arm64asm"
)

// The arm64 micro-interpreter of property C15: decodes 4-byte words with the *reference*
// decoder (verifh/ref/arm64asm) and executes them on a symbolic machine until the first
// branch. A register is "unchanged since entry", a constant of which some 16-bit lanes are
// known (MOVK into an unknown register), or the content of the 8-byte memory cell at a known
// address (after LDR).

type areg struct {
	known   uint64 // mask of known bits of val
	val     uint64
	fromMem bool   // holds mem64[addr]
	addr    uint64
}

type aout struct {
	err     string // "" or class
	detail  string
	regs    [31]areg
	written uint32 // bit n: Xn written
	brReg   int    // register of the BR
	insts   int
	asm     []string
}

func xreg(a arm64asm.Arg) (int, bool) {
	switch r := a.(type) {
	case arm64asm.Reg:
		if r >= arm64asm.X0 && r <= arm64asm.X30 {
			return int(r - arm64asm.X0), true
		}
	case arm64asm.RegSP:
		if arm64asm.Reg(r) >= arm64asm.X0 && arm64asm.Reg(r) <= arm64asm.X30 {
			return int(arm64asm.Reg(r) - arm64asm.X0), true
		}
	}
	return 0, false
}

// immShift reads the unexported fields of arm64asm.ImmShift.
func immShift(a arm64asm.Arg) (imm uint64, shift uint, ok bool) {
	is, ok := a.(arm64asm.ImmShift)
	if !ok {
		return 0, 0, false
	}
	v := reflect.ValueOf(is)
	return v.FieldByName("imm").Uint(), uint(v.FieldByName("shift").Uint()), true
}

func memImm(a arm64asm.Arg) (base int, off int64, ok bool) {
	m, ok := a.(arm64asm.MemImmediate)
	if !ok || m.Mode != arm64asm.AddrOffset {
		return 0, 0, false
	}
	base, ok = xreg(m.Base)
	return base, reflect.ValueOf(m).FieldByName("imm").Int(), ok
}

func runA64(code []byte, wantAsm bool) (o aout) {
	o.brReg = -1
	for off := 0; off+4 <= len(code); off += 4 {
		inst, err := arm64asm.Decode(code[off:])
		if err != nil {
			o.err, o.detail = "undecodable", fmt.Sprintf("word %d (%#08x): %v", off/4, binary.LittleEndian.Uint32(code[off:]), err)
			return
		}
		o.insts++
		if wantAsm {
			o.asm = append(o.asm, inst.String())
		}
		bad := func() aout {
			o.err, o.detail = "unexpected-instruction", inst.String()
			return o
		}
		switch inst.Op {
		case arm64asm.NOP:
		case arm64asm.MOV: // alias of MOVZ/MOVN with the expanded 64-bit immediate
			d, ok := xreg(inst.Args[0])
			imm, ok2 := inst.Args[1].(arm64asm.Imm64)
			if !ok || !ok2 {
				return bad()
			}
			o.regs[d] = areg{known: ^uint64(0), val: imm.Imm}
			o.written |= 1 << uint(d)
		case arm64asm.MOVZ, arm64asm.MOVN, arm64asm.MOVK:
			d, ok := xreg(inst.Args[0])
			imm, sh, ok2 := immShift(inst.Args[1])
			if !ok || !ok2 || sh > 48 || sh%16 != 0 {
				return bad()
			}
			switch inst.Op {
			case arm64asm.MOVZ:
				o.regs[d] = areg{known: ^uint64(0), val: imm << sh}
			case arm64asm.MOVN:
				o.regs[d] = areg{known: ^uint64(0), val: ^(imm << sh)}
			default:
				r := o.regs[d]
				if r.fromMem {
					r = areg{}
				}
				r.val = r.val&^(0xffff<<sh) | imm<<sh
				r.known |= 0xffff << sh
				o.regs[d] = r
			}
			o.written |= 1 << uint(d)
		case arm64asm.LDR:
			t, ok := xreg(inst.Args[0])
			b, disp, ok2 := memImm(inst.Args[1])
			if !ok || !ok2 {
				return bad()
			}
			if o.regs[b].fromMem || o.regs[b].known != ^uint64(0) {
				o.err, o.detail = "unknown-address", fmt.Sprintf("%s loads from X%d, which is not a fully known constant (known bits %#016x)", inst.String(), b, o.regs[b].known)
				return
			}
			o.regs[t] = areg{fromMem: true, addr: o.regs[b].val + uint64(disp)}
			o.written |= 1 << uint(t)
		case arm64asm.BR:
			n, ok := xreg(inst.Args[0])
			if !ok {
				return bad()
			}
			o.brReg = n
			return
		default:
			return bad()
		}
	}
	o.err, o.detail = "no-control-transfer", fmt.Sprintf("%d bytes executed without reaching a branch", len(code))
	return
}
